#!/usr/bin/env python3
"""Authoring-time: every confirmed refactoring (selftest/equivalents) combined with each of the twelve mechanical
behaviour-preserving transformations must stay silent on the checks of the area it touches (+ C11).  Analysis only."""
import sys, os, glob, subprocess, tempfile, shutil
sys.path.insert(0, '/verif')
from concurrent.futures import ProcessPoolExecutor
from sa.core import Program
from sa.selftest.probes import variants
from sa.selftest.runner import _analyse_sources

AREAS = [(("vpsc", "removeOverlap", "force", "distributor", "node", "metrics"), ["C01", "C04", "C05", "C06"]),
         (("scale", "d3_time"), ["C12", "C13", "C14", "C16", "C17"]),
         (("timeline", "renderer", "tex", "utils"), ["C07", "C09", "C19", "C20"])]


def job(f):
    name = os.path.basename(f)[:-5]
    txt = open(f).read()
    props = {"C11"}
    for mods, ps in AREAS:
        if any("labella/%s.py" % m in txt for m in mods):
            props |= set(ps)
    d = tempfile.mkdtemp(prefix='pe_')
    shutil.copytree('/repo/labella', d + '/labella')
    p = subprocess.run(['patch', '-p1', '-s', '-i', f], cwd=d, capture_output=True)
    if p.returncode:
        shutil.rmtree(d)
        return name, 'noapply', []
    src = dict(Program.load(d).sources)
    shutil.rmtree(d)
    bad = []
    n = 0
    for vn, s, err in variants(src, '/repo'):
        if s is None:
            continue
        for prop in sorted(props):
            r = _analyse_sources((prop, s))
            n += 1
            if r[0] != 0:
                bad.append((vn, prop, r[0], r[1][:3]))
    return name, n, bad


if __name__ == '__main__':
    files = sorted(glob.glob('/verif/selftest/equivalents/%s.diff' % (sys.argv[1] if len(sys.argv) > 1 else '*')))
    tot = 0
    with ProcessPoolExecutor(16) as ex:
        for name, n, bad in ex.map(job, files):
            if n == 'noapply':
                print(name, 'noapply'); continue
            tot += n
            if bad:
                print(name, 'ALARMS', bad[:6], flush=True)
    print('analyses', tot)
