#!/bin/bash
# eqdetail.sh <equiv name> <prop>: show the violations raised on an equivalent
f=/verif/selftest/equivalents/$1.diff
d=$(mktemp -d /tmp/mt.XXXXXX); cp -r /repo/labella $d/
(cd $d && patch -p1 -s < $f)
cd /verif && ./check $2 --root $d 2>&1 | grep -A3 -E "^VIOLATION|ANALYSIS-ERROR" | grep -v "^VIOLATION" | cut -c1-${3:-420}
rm -rf $d
